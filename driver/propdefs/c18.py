from props import *  # noqa: F401,F403

# ------------------------------------------------------------------------------------------------
_SRC = ["harness/c18_resource_env.cc"]
rc_bin("c18_rc", _SRC, lib=True)
# the readers and the detector are compiled with coverage instrumentation into the fuzz binary
fuzz_bin("c18_fuzz", _SRC, lib=True,
         repo_srcs=["sdk/src/common/env_variables.cc", "sdk/src/resource/resource_detector.cc"])
PROPS["C18"] = dict(
    level_text="Differential and algebraic property tests (rapidcheck + libFuzzer, ASan/UBSan): every explored "
               "setting string agreed with a two-sided reference grammar for the five environment readers under "
               "every ambient errno, every generated pair of attribute maps merged as the union with the "
               "argument winning, every generated OTEL_RESOURCE_ATTRIBUTES list (and settings derived from it) was "
               "read under one consistent reading of the list syntax, Resource::Create / OTEL_SDK_DISABLED were "
               "checked in a fresh process per case, and every span, log record and metric batch of providers built "
               "through every public constructor / factory overload carried exactly its provider's resource at every "
               "exporter. Exploration is the right level: the domain (all strings, all maps, all provider shapes) is "
               "unbounded and the oracle is cheap, so breadth of generated boundary cases is what finds parsing, "
               "precedence and fan-out defects.",
    technique="differential reference grammar (two-sided) + algebraic laws + fork-per-case precedence model + "
              "metamorphic consistency of the list reading across derived settings + resource-content model at "
              "harness exporters over generated provider construction paths; rapidcheck and libFuzzer",
    rule="Cases are choice streams decoded into environment settings, attribute maps and schema URLs, and into "
         "(resource, provider construction path, processor / reader list, operation list) configurations.",
    generators="readers: one named string class per alternative (edges of 2^32 / 2^63 / 2^64, many digits, signs, blank "
               "padding, units, junk, odd spellings, random bytes) x ambient errno 0 / ERANGE / EINVAL. gen_env "
               "(res_detect, res_create, sdk_disabled): list unset / empty / random / structured; a structured list "
               "has 1..6 members (6 % of the control bytes: 7..52) of 9 kinds (well-formed, missing '=', empty "
               "member / key / value, blanks in four positions, '=' or '%' in the value, repeated key); keys and "
               "values come from small pools (so that layers and members collide) or, for 14 % of each, from a rich "
               "generator: inner blanks, ';', '\"', UTF-8 and invalid high bytes, random bytes, filler of 200..3200 "
               "bytes (beyond 1 KiB); OTEL_SERVICE_NAME unset / svcN / empty / six oddities / random bytes / rich text. "
               "res_detect additionally derives 0..2 settings from the generated one: members reversed or rotated, one "
               "odd member (13 forms) inserted at two different positions, an existing key repeated at two positions. "
               "res_detect_bytes: arbitrary list bytes, service name unset / 'svc' / up to 15 arbitrary bytes, plus the "
               "same members in reverse order. res_merge / res_create / res_reference attribute maps: 16 value types "
               "with edge numbers, NUL-carrying keys and strings, long keys. res_reference: resource given as built, "
               "given as Resource::Create(...) result, or left to the default argument; tracer / logger / meter provider "
               "through constructor or factory, one-processor or vector overload, every argument count (0..4 / 0..2 / "
               "0..3), TracerContext / LoggerContext / MeterContext through constructor or context factory and handed to "
               "the provider constructor or factory, LoggerProvider(); 1..3 processors (Simple, or a holding one that "
               "exports in one batch at flush / shutdown / destruction) handed over or added by AddProcessor before / "
               "after Get{Tracer,Logger,Meter} and between operations; 1..3 readers with or without a MetricFilter; 1..6 "
               "operations (spans ended at once, kept open, children, second tracer; EmitLogRecord(args), "
               "CreateLogRecord + EmitLogRecord(record[, args]) possibly through another logger of the provider, Log(), "
               "EventLogger::EmitEvent; counter / histogram on one or two meters, Collect on a reader) and 1..2 final "
               "collections per reader; ForceFlush / Shutdown / plain destruction, scopes released before or after "
               "the provider; in 20 % a second provider of the same signal with another resource is used in between.",
    oracle="readers: verdict ACCEPT (true + exact value) / REJECT (documented default) / EITHER per (reader, string) from a "
           "reference written from the statement. res_merge: union model + laws. res_detect: the detected map must equal "
           "the reading under at least one of 128 profiles (7 independent open choices), and ONE profile must explain the "
           "generated setting and every setting derived from it. res_create / sdk_disabled (fresh process per case): "
           "defaults < environment (any allowed reading) < caller, service.name rule, schema URL; Set*Provider installs "
           "exactly when the boolean grammar says so. Clause 7 (sdk_disabled, res_reference): the resource CONTENT "
           "(attributes by type and value, schema URL) found in every recordable / batch, read inside the exporter at "
           "export time, equals what the provider was built with, and Provider::GetResource() equals it too; the "
           "argument object is destroyed right after construction (a retained reference is a sanitizer report); whether "
           "the recordable points at the provider's own object or at an equal copy is recorded as a tag only "
           "(ref-same-object / ref-equal-copy). Non-vacuity: a processor attached before a recordable was made must "
           "receive it; a reader attached before an instrument with measurements was created must see a non-empty batch.",
    assumptions=[
        "readers: blank padding, a leading sign (non-negative value), a zero duration and float spellings "
        "beyond plain decimals (exponent, hex, inf/nan, underflow) are either-regions: reject, or accept "
        "with exactly the denoted value; a rejected duration may leave the out-parameter untouched",
        "a bare number is a duration in seconds (documented in env_variables.cc)",
        "the boolean reader's return flag means 'the variable exists' (env_variables.h), so 'false' and an invalid "
        "string are both (true, false); the warning that the implementation logs for an invalid string is not "
        "documented anywhere and is therefore not required",
        "OTEL_RESOURCE_ATTRIBUTES: blank trimming, percent-decoding, first/last of a repeated key, "
        "empty keys/tokens and skip-token vs discard-all on a malformed token are either-regions "
        "(specification vs implementation); the value splits at the first '='; the choice among them is one "
        "choice per process, not one per setting or per member",
        "the C library's strtof is the trusted grammar for float spellings beyond plain decimals",
        "clause 7: 'references its provider's resource' is decided on the content of the resource; an empty "
        "metric batch without a resource pointer is accepted; the default-argument resource of a process without "
        "OTEL_* settings is the SDK defaults plus service.name=unknown_service",
        "all readers run in the C locale (no other locale is installed on the image)",
        SC_NOTE,
    ],
    runs=[
        run("readers", "c18_rc", "env_readers", "rc", dict(procs=3, cases=100000), dict(procs=8, cases=400000)),
        run("bytes", "c18_rc", "env_bytes", "rc", dict(procs=1, cases=30000, max_size=40),
            dict(procs=2, cases=300000, max_size=60)),
        run("merge", "c18_rc", "res_merge", "rc", dict(procs=1, cases=20000), dict(procs=4, cases=150000)),
        run("detect", "c18_rc", "res_detect", "rc", dict(procs=2, cases=15000), dict(procs=4, cases=100000)),
        run("detect-bytes", "c18_rc", "res_detect_bytes", "rc", dict(procs=1, cases=10000, max_size=40),
            dict(procs=2, cases=200000, max_size=60)),
        # fork per case (about 6 ms / 14 ms each): modest counts, every child does several checks
        run("create", "c18_rc", "res_create", "rc", dict(procs=3, cases=1500), dict(procs=6, cases=12000)),
        run("disabled", "c18_rc", "sdk_disabled", "rc", dict(procs=2, cases=1000), dict(procs=6, cases=7000)),
        # no fork, no environment: generated provider construction paths and operation lists (clause 7)
        run("reference", "c18_rc", "res_reference", "rc", dict(procs=2, cases=30000), dict(procs=4, cases=200000)),
        run("bytes-fuzz", "c18_fuzz", "env_bytes", "fuzz", dict(procs=2, cases=300000, max_len=64),
            dict(procs=6, cases=2500000, max_len=96), replay_bin="c18_rc"),
        run("detect-fuzz", "c18_fuzz", "res_detect_bytes", "fuzz", dict(procs=1, cases=40000, max_len=48),
            dict(procs=4, cases=400000, max_len=96), replay_bin="c18_rc"),
    ],
)

#!/usr/bin/env python3
"""Writes /verif/MANIFEST.json from driver/props.py so the two never drift apart."""
import json
import os
import sys

VERIF = os.path.dirname(os.path.dirname(os.path.abspath(__file__)))
sys.path.insert(0, os.path.join(VERIF, "driver"))
import props  # noqa: E402

ALL = ["C%02d" % i for i in range(1, 21)]
# only checks listed in driver/ready.txt are claimed (others may be under construction)
with open(os.path.join(VERIF, "driver", "ready.txt")) as _f:
    READY = set(_f.read().split())
checks = []
for pid in ALL:
    P = props.PROPS.get(pid)
    if not P or P.get("disabled") or pid not in READY:
        continue
    engines = sorted({r["engine"] for r in P["runs"]})
    checks.append({
        "property_id": pid,
        "quick_cmd": "./check %s --tier quick" % pid,
        "thorough_cmd": "./check %s --tier thorough" % pid,
        "evidence_file": "evidence/%s.json" % pid,
        "replay_cmd_template": "./check %s --replay {path}" % pid,
        "engine": "+".join({"rc": "rapidcheck", "fuzz": "libFuzzer"}.get(e, e) for e in engines),
        "level_claimed": {
            "category": "exploration",
            "text": P.get("level_text", ""),
            "design_ref": "DESIGN.md section 4 (%s)" % pid,
        },
        "level_note": P.get("level_note", "Held on the generated cases only (no proof of absence). " + "; ".join(P.get("assumptions", []))),
        "technique": P.get("technique", "property-based testing (rapidcheck-generated, shrunk choice streams) against an explicit oracle"),
    })
na = []
for pid in ALL:
    P = props.PROPS.get(pid)
    if not P or P.get("disabled") or pid not in READY:
        na.append({"property_id": pid, "reason": (P or {}).get("na_reason", "check not built yet in this revision of /verif (planned, see DESIGN.md section 4); not claimed until it exists")})
m = {
    "version": 1,
    "setup_cmd": "./check --setup",
    "hooks": {
        "guard": "OTELCPP_VERIF_HOOKS",
        "enable": "none needed: no source hooks exist; harnesses observe through public exporter/reader/processor interfaces and re-compile unmodified sources against a scheduler shim",
        "baseline_off_cmd": "cmake --build /repo/_build -j16 && ctest --test-dir /repo/_build -j8 --timeout 900",
        "source_commits": [],
        "add_only": True,
    },
    "engines": [
        {"name": "E-RC", "path": "harness/common/main_rc.cc", "serves_properties": [c["property_id"] for c in checks],
         "kind_free_text": "rapidcheck generates and shrinks a choice stream that each target decodes into a structured case; explicit oracle inside the target; ASan+UBSan build"},
        {"name": "E-SCHED", "path": "sched/vsched.h", "serves_properties": ["C01", "C02", "C03", "C11"],
         "kind_free_text": "deterministic schedule-controlled execution: the unmodified concurrent sources are token-renamed (sched/rename.sed) and compiled against a scheduler shim that owns atomics, mutexes, condition variables, threads and the clock; schedules (weighted / explicit / PCT) are part of the generated choice stream; bounded-exhaustive DFS by preemption bound for small C11 configurations"},
        {"name": "E-THR", "path": "harness/batch_thr.cc", "serves_properties": ["C01", "C03", "C04", "C05", "C06", "C10", "C13"],
         "kind_free_text": "real OS threads on the ASan and TSan builds with generated thread programs; adds sanitizer (data race / memory) and stamp-free invariant evidence, never the sole decider of a schedule-quantified clause"},
        {"name": "E-FUZZ", "path": "harness/common/main_fuzz.cc", "serves_properties": sorted({pid for pid, P in props.PROPS.items() if any(r["engine"] == "fuzz" for r in P["runs"])}),
         "kind_free_text": "libFuzzer coverage-guided mutation of the same choice stream / raw header bytes, semantic oracle inside the target"},
    ],
    "checks": checks,
    "not_applicable": na,
    "notes": "Driver: ./check (python3 stdlib + ninja + clang). Known findings: known_findings.json. Replays: replays/<ID>/. See DESIGN.md.",
}
with open(os.path.join(VERIF, "MANIFEST.json"), "w") as f:
    json.dump(m, f, indent=1)
    f.write("\n")
print("checks:", [c["property_id"] for c in checks])

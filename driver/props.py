"""Per-property configuration: harness binaries, targets and case budgets per tier.

A *run* = one target of one binary under one engine.  `cases` is per process; `procs` processes
run in parallel with different derived seeds (rapidcheck is single threaded).  Budgets are case
counts, never time limits; `timeout` only bounds a campaign (hitting it = inconclusive)."""

BINARIES = {}
PROPS = {}


def rc_bin(name, srcs, **kw):
    d = dict(srcs=srcs, main="rc")
    d.update(kw)
    BINARIES[name] = d


def fuzz_bin(name, srcs, **kw):
    d = dict(srcs=srcs, main="fuzz")
    d.update(kw)
    BINARIES[name] = d


def run(name, bin, target, engine, quick, thorough, **kw):
    d = dict(name=name, bin=bin, target=target, engine=engine, quick=quick, thorough=thorough)
    d.update(kw)
    return d


def binaries_of(P, tier):
    s = set()
    for r in P["runs"]:
        if r.get(tier) or r.get("quick"):
            s.add(r["bin"])
            s.add(replay_bin(r))
    return s


def replay_bin(r):
    """binary that replays a case of this run outside the library (a fuzz run replays through the
    rapidcheck-driver binary built from the same harness source)"""
    return r.get("replay_bin", r["bin"])


def run_for_target(P, target):
    cands = [r for r in P["runs"] if r["target"] == target]
    if not cands:
        return None
    for r in cands:
        if r["engine"] == "rc":
            return r
    return cands[0]


SC_NOTE = "sanitizers (ASan+UBSan, asserts enabled) are part of the oracle"



BATCH_SHADOW = [
    "sdk/include/opentelemetry/sdk/common/circular_buffer.h",
    "sdk/include/opentelemetry/sdk/common/atomic_unique_ptr.h",
    "api/include/opentelemetry/common/spin_lock_mutex.h",
    "sdk/include/opentelemetry/sdk/trace/batch_span_processor.h",
    "sdk/src/trace/batch_span_processor.cc",
    "sdk/include/opentelemetry/sdk/logs/batch_log_record_processor.h",
    "sdk/src/logs/batch_log_record_processor.cc",
]
BATCH_SHADOW_SRCS = [
    "sdk/src/trace/batch_span_processor.cc",
    "sdk/src/logs/batch_log_record_processor.cc",
]
# the periodic metric reader (C02 / C03 reader clauses)
READER_SHADOW = [
    "sdk/include/opentelemetry/sdk/metrics/export/periodic_exporting_metric_reader.h",
    "sdk/src/metrics/export/periodic_exporting_metric_reader.cc",
    "sdk/include/opentelemetry/sdk/metrics/metric_reader.h",
    "sdk/src/metrics/metric_reader.cc",
]
SIMPLE_SHADOW = [
    "sdk/include/opentelemetry/sdk/trace/simple_processor.h",
    "sdk/include/opentelemetry/sdk/logs/simple_log_record_processor.h",
    "sdk/src/logs/simple_log_record_processor.cc",
]
SIMPLE_SHADOW_SRCS = ["sdk/src/logs/simple_log_record_processor.cc"]
READER_SHADOW_SRCS = [
    "sdk/src/metrics/export/periodic_exporting_metric_reader.cc",
    "sdk/src/metrics/metric_reader.cc",
]
# the whole metrics SDK under the scheduler shim (C06 meter_sched): every header and source of
# sdk/.../metrics plus the spin lock; resolved by glob against the tree that is being checked
METRICS_SHADOW_GLOBS = [
    "sdk/include/opentelemetry/sdk/metrics/**/*.h",
    "sdk/src/metrics/**/*.cc",
    "sdk/src/metrics/**/*.h",
]
METRICS_SHADOW_SRCS_GLOBS = ["sdk/src/metrics/**/*.cc"]
METRICS_PLAIN_GLOBS = ["sdk/src/common/**/*.cc", "sdk/src/resource/*.cc", "sdk/src/version/*.cc"]
# plain (unshadowed) repository sources the shadowed classes need at link time
BATCH_PLAIN = [
    "sdk/src/trace/exporter.cc",
    "sdk/src/logs/exporter.cc",
    "sdk/src/logs/read_write_log_record.cc",
    "sdk/src/logs/readable_log_record.cc",
    "sdk/src/common/global_log_handler.cc",
    "sdk/src/common/env_variables.cc",
    "sdk/src/resource/resource.cc",
    "sdk/src/resource/resource_detector.cc",
    "sdk/src/version/version.cc",
]
# the scheduler shim passes a baton between pooled OS threads at almost every step: fake-stack
# allocation (stack-use-after-return detection) would dominate the run time there
SCHED_ASAN = "detect_stack_use_after_return=0"
SCHED_ASSUMPTIONS = [
    "the schedule-controlled engine explores interleavings of synchronisation operations under sequential consistency; "
    "weak-memory reorderings are not explored",
    "liveness is bounded: no deadlock and completion within a step budget under a fairness quantum, in virtual time",
    "virtual time: timed waits expire in deadline order and never early; in the periodic-reader / provider scenarios that "
    "request it, timers expiring within 30 us of each other wake at the same instant (wake-up latency) and the schedule "
    "decides who runs first",
    "only std::atomic/mutex/condition_variable/thread/this_thread/steady_clock/system_clock tokens are renamed in copies of the "
    "processor sources; the compiled code is otherwise the repository's",
]


def _load_all():
    import glob
    import importlib.util
    import os
    import sys
    sys.modules.setdefault("props", sys.modules[__name__])
    here = os.path.dirname(os.path.abspath(__file__))
    for f in sorted(glob.glob(os.path.join(here, "propdefs", "c*.py"))):
        spec = importlib.util.spec_from_file_location("propdef_" + os.path.basename(f)[:-3], f)
        mod = importlib.util.module_from_spec(spec)
        spec.loader.exec_module(mod)


_load_all()

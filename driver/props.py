"""Per-property configuration: harness binaries, targets and case budgets per tier.

A *run* = one target of one binary under one engine.  `cases` is per process; `procs` processes
run in parallel with different derived seeds (rapidcheck is single threaded).  Budgets are case
counts, never time limits; `timeout` only bounds a campaign (hitting it = inconclusive)."""

BINARIES = {}
PROPS = {}


def rc_bin(name, srcs, **kw):
    d = dict(srcs=srcs, main="rc")
    d.update(kw)
    BINARIES[name] = d


def fuzz_bin(name, srcs, **kw):
    d = dict(srcs=srcs, main="fuzz")
    d.update(kw)
    BINARIES[name] = d


def run(name, bin, target, engine, quick, thorough, **kw):
    d = dict(name=name, bin=bin, target=target, engine=engine, quick=quick, thorough=thorough)
    d.update(kw)
    return d


def binaries_of(P, tier):
    s = set()
    for r in P["runs"]:
        if r.get(tier) or r.get("quick"):
            s.add(r["bin"])
            s.add(replay_bin(r))
    return s


def replay_bin(r):
    """binary that replays a case of this run outside the library (a fuzz run replays through the
    rapidcheck-driver binary built from the same harness source)"""
    return r.get("replay_bin", r["bin"])


def run_for_target(P, target):
    cands = [r for r in P["runs"] if r["target"] == target]
    if not cands:
        return None
    for r in cands:
        if r["engine"] == "rc":
            return r
    return cands[0]


SC_NOTE = "sanitizers (ASan+UBSan, asserts enabled) are part of the oracle"



def _load_all():
    import glob
    import importlib.util
    import os
    import sys
    sys.modules.setdefault("props", sys.modules[__name__])
    here = os.path.dirname(os.path.abspath(__file__))
    for f in sorted(glob.glob(os.path.join(here, "propdefs", "c*.py"))):
        spec = importlib.util.spec_from_file_location("propdef_" + os.path.basename(f)[:-3], f)
        mod = importlib.util.module_from_spec(spec)
        spec.loader.exec_module(mod)


_load_all()

// sched_harness.h - glue between the choice stream of a case (vh::Reader) and the scheduler shim.
//
// Layout of the schedule part of a stream: one mode byte, then decisions.
//   mode 0  weighted: a decision byte c preempts the running thread with probability
//           switch_weight/256 (prefer_switch points: 160/256); spurious weak-CAS failure when c>=232
//   mode 1  explicit: each byte IS the index of the chosen alternative (bounded-exhaustive DFS
//           and hand-written replays); spurious failure iff the byte is non-zero
//   mode 2  PCT (probabilistic concurrency testing, Burckhardt et al.): every thread gets a
//           generated priority when first seen, the highest-priority runnable thread runs, and at
//           1..3 generated change points (decision indices) the running thread drops to the lowest
//           priority - long uninterrupted runs with a few precisely placed preemptions
//   mode 3  sparse (mode byte >= 192): a salt byte, a gap-scale byte, then (gap, choice) pairs: the
//           running thread continues for gap*scale decisions, is then preempted in favour of the
//           chosen alternative, and so on - a few hundred bytes place preemptions anywhere in a
//           scenario of thousands of scheduling points (weighted mode spends one byte per point and
//           therefore only ever perturbs the beginning).  Forced choices (running thread blocked)
//           and weak-CAS failures are a fixed function of the salt and the decision index.  A fifth
//           header byte may add ONE long stall: at a generated decision the running thread is taken off
//           the processor for 20000..120000 points (the fairness quantum models a fair scheduler; a real
//           one may deschedule a thread for longer than any bounded retry loop waits).
// An exhausted stream gives the default alternative (continue the running thread; the scheduler's
// fairness quantum keeps spin loops progressing).
#pragma once

#include <string>
#include <vector>

#include "vh.h"
#include "vsched.h"

namespace vsh
{

struct Decision
{
  int chosen;
  int n;          // number of alternatives (2 for a spurious-failure decision)
  bool counts;    // a non-default choice here is a preemption (running thread could continue)
  bool spurious;  // this is a weak-CAS decision
};

// the decisions of the most recent scenario (read by the exhaustive driver)
inline std::vector<Decision> &last_trace()
{
  static std::vector<Decision> t;
  return t;
}

class ByteSource : public vsched::ChoiceSource
{
public:
  explicit ByteSource(vh::Reader &rd, unsigned switch_weight = 48) : rd_(rd), sw_(switch_weight)
  {
    uint8_t mb = rd_.u8();
    mode_      = mb >= 192 ? 3 : mb % 3;
    last_trace().clear();
    if (mode_ == 2)
    {
      unsigned d = 1 + rd_.below(3);
      static const uint32_t range[] = {120, 700, 4000};
      for (unsigned i = 0; i < d; ++i)
        change_points_.push_back(rd_.below(range[rd_.weighted({4, 4, 3})]));
    }
    if (mode_ == 3)
    {
      salt_      = rd_.u8();
      gap_scale_ = 1 + rd_.u8() % 16;
      skip_      = static_cast<unsigned>(rd_.u8()) * gap_scale_;
      // one long stall: at a generated decision the running thread is descheduled for tens of thousands
      // of points (longer than any retry bound a lock-free loop might be given)
      uint8_t sb = rd_.u8();
      if (sb >= 160)
      {
        static const uint64_t lens[] = {20000, 60000, 120000};
        stall_len_ = lens[sb % 3];
        unsigned b1 = rd_.u8(), b2 = rd_.u8();
        // 0..1023, skewed towards early decisions (short scenarios have only a few dozen)
        stall_at_ = (b1 | ((b2 & 3u) << 8)) >> ((b2 >> 2) & 3u);
      }
    }
  }
  int mode() const { return mode_; }
  const char *mode_name() const
  {
    return mode_ == 0 ? "weighted" : mode_ == 1 ? "explicit" : mode_ == 2 ? "pct" : "sparse";
  }
  int choose(int n, bool cur_runnable, bool prefer_switch, const int *ids) override
  {
    int k = 0;
    if (mode_ == 2)
    {
      // priorities: assigned on first sight
      for (int i = 0; i < n; ++i)
      {
        size_t id = static_cast<size_t>(ids[i]);
        if (id >= prio_.size())
          prio_.resize(id + 1, kUnassigned);
        if (prio_[id] == kUnassigned)  // (demoted priorities are negative: they must stay demoted)
          prio_[id] = 1000 + static_cast<int>(rd_.u8()) * 8 + static_cast<int>(id);
      }
      if (cur_runnable)
        for (unsigned cp : change_points_)
          if (cp == decisions_)
            prio_[static_cast<size_t>(ids[0])] = --lowest_;
      if (prefer_switch && cur_runnable)
        prio_[static_cast<size_t>(ids[0])] = --lowest_;  // a yielding thread lets the others go first
      int best = 0;
      for (int i = 1; i < n; ++i)
        if (prio_[static_cast<size_t>(ids[i])] > prio_[static_cast<size_t>(ids[best])])
          best = i;
      k = best;
      ++decisions_;
    }
    else if (mode_ == 3)
    {
      if (!cur_runnable)
        k = static_cast<int>(mix(decisions_) % static_cast<unsigned>(n));
      else if (prefer_switch)
        k = 1 + static_cast<int>(mix(decisions_) % static_cast<unsigned>(n - 1));  // a yield lets another thread go
      else if (skip_ > 0)
        --skip_;
      else if (!rd_.exhausted())
      {
        uint8_t g = rd_.u8();
        uint8_t c = rd_.u8();
        k         = 1 + static_cast<int>(c % static_cast<unsigned>(n - 1));
        skip_     = static_cast<unsigned>(g) * gap_scale_;
      }
      ++decisions_;
    }
    else if (!rd_.exhausted())
    {
      uint8_t c = rd_.u8();
      if (mode_ == 1)
        k = c % n;
      else if (cur_runnable)
      {
        unsigned w = prefer_switch ? 160 : sw_;
        k          = c >= w ? 0 : 1 + static_cast<int>(c % static_cast<unsigned>(n - 1));
      }
      else
        k = c % n;
    }
    if (last_trace().size() < kMaxTrace)
      last_trace().push_back(Decision{k, n, cur_runnable, false});
    return k;
  }
  uint64_t stall_points(int) override
  {
    if (stall_len_ && stall_calls_++ == stall_at_)
      return stall_len_;
    return 0;
  }
  void quantum_expired(int id) override
  {
    if (mode_ == 2 && id >= 0)
    {
      if (static_cast<size_t>(id) >= prio_.size())
        prio_.resize(static_cast<size_t>(id) + 1, kUnassigned);
      prio_[static_cast<size_t>(id)] = --lowest_;
    }
  }
  bool spurious() override
  {
    bool f = false;
    if (mode_ == 3)
      f = (salt_ & 1) && mix(0x5000u + spur_n_++) % 24 == 0;
    else if (mode_ != 2 && !rd_.exhausted())
    {
      uint8_t c = rd_.u8();
      f         = mode_ == 1 ? c != 0 : c >= 232;
      if (mode_ == 2)
        f = false;  // PCT mode spends its stream on priorities only
    }
    if (last_trace().size() < kMaxTrace)
      last_trace().push_back(Decision{f ? 1 : 0, 2, false, true});
    return f;
  }
  static constexpr size_t kMaxTrace = 100000;
  static constexpr int kUnassigned  = -2147483647;

private:
  // a fixed mixing function of the case's salt byte and an index (no state, no RNG)
  unsigned mix(unsigned i) const
  {
    uint32_t x = (static_cast<uint32_t>(salt_) + 1u) * 0x9E3779B1u ^ (i * 0x85EBCA6Bu);
    x ^= x >> 15;
    x *= 0x2C1B3C6Du;
    x ^= x >> 12;
    return x >> 4;
  }
  vh::Reader &rd_;
  unsigned sw_;
  int mode_;
  uint64_t stall_len_ = 0;
  unsigned stall_at_ = 0, stall_calls_ = 0;
  uint8_t salt_       = 0;
  unsigned gap_scale_ = 1, skip_ = 0, spur_n_ = 0;
  std::vector<int> prio_;
  std::vector<unsigned> change_points_;
  unsigned decisions_ = 0;
  int lowest_         = 0;
};

inline void fatal(const vsched::Failure &f)
{
  vh::fatal_failure(f.what);
}

// Bounded-exhaustive enumeration of schedules (preemption bound / spurious bound) by depth-first
// search over explicit decision prefixes.  `run(prefix_bytes)` executes one schedule (mode byte 1 +
// the prefix) and leaves its decisions in last_trace().  Returns the number of schedules run, or
// stops early at max_schedules (complete=false).
struct DfsResult
{
  uint64_t schedules = 0;
  bool complete      = false;
  uint64_t max_depth = 0;
};

template <class Run>
DfsResult dfs(int preemption_bound, int spurious_bound, uint64_t max_schedules, Run &&run)
{
  DfsResult r;
  std::vector<uint8_t> prefix;
  for (;;)
  {
    bool go_on = run(prefix);
    r.schedules++;
    if (!go_on)
      return r;
    std::vector<Decision> tr = last_trace();
    if (tr.size() > r.max_depth)
      r.max_depth = tr.size();
    if (tr.size() >= ByteSource::kMaxTrace || tr.size() > 250 * 1000)
      return r;  // cannot enumerate faithfully
    // next prefix: the deepest decision with an untried alternative that fits the bounds
    bool found = false;
    for (size_t i = tr.size(); i-- > 0;)
    {
      const Decision &d = tr[i];
      if (d.chosen + 1 >= d.n)
        continue;
      int pre = 0, sp = 0;
      for (size_t j = 0; j < i; ++j)
      {
        if (tr[j].spurious)
          sp += tr[j].chosen != 0;
        else if (tr[j].counts)
          pre += tr[j].chosen != 0;
      }
      if (d.spurious)
      {
        if (sp + 1 > spurious_bound)
          continue;
      }
      else if (d.counts)
      {
        if (pre + 1 > preemption_bound)
          continue;
      }
      if (i >= 255 * 1000)
        continue;
      prefix.clear();
      for (size_t j = 0; j < i; ++j)
        prefix.push_back(static_cast<uint8_t>(tr[j].chosen));
      prefix.push_back(static_cast<uint8_t>(d.chosen + 1));
      found = true;
      break;
    }
    if (!found)
    {
      r.complete = true;
      return r;
    }
    if (r.schedules >= max_schedules)
      return r;
  }
}

}  // namespace vsh

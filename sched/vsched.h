// vsched.h - deterministic schedule-controlled execution (engine E-SCHED).
//
// The concurrent sources of the repository are copied at build time with the tokens
//   std::atomic, std::mutex, std::condition_variable, std::thread, std::this_thread,
//   std::chrono::steady_clock, std::chrono::system_clock, std::promise, std::future,
//   std::future_status
// renamed to vsched::... (sched/rename.sed) and compiled against this shim.  Every synchronisation
// operation is a scheduling point; exactly one logical thread runs at a time (real OS threads that
// pass a baton); time is virtual.  The schedule is a sequence of choices drawn from a ChoiceSource
// (the harness feeds it from the case's choice stream), so an interleaving is generated, shrunk and
// replayed like any other input.  See DESIGN.md appendix A for the semantics.
#pragma once

#include <algorithm>
#include <atomic>
#include <cassert>
#include <chrono>
#include <condition_variable>
#include <cstdint>
#include <cstdio>
#include <cstdlib>
#include <functional>
#include <future>
#include <limits>
#include <memory>
#include <mutex>
#include <string>
#include <thread>
#include <tuple>
#include <utility>
#include <vector>

namespace vsched
{

// ------------------------------------------------------------------------------------------------
struct ChoiceSource
{
  virtual ~ChoiceSource() = default;
  // A scheduling decision with n_alts >= 2 alternatives.  Alternative 0 is the default: continue
  // the running thread when it can continue (cur_runnable), else the runnable thread with the
  // lowest id; alternative k > 0 is the k-th other runnable thread in id order.  Choosing k > 0
  // while cur_runnable is a preemption.
  // ids[0..n_alts) are the logical thread ids behind the alternatives in that order.
  virtual int choose(int n_alts, bool cur_runnable, bool prefer_switch, const int *ids) = 0;
  // should this otherwise successful weak compare-exchange fail spuriously?
  virtual bool spurious() = 0;
  // the running thread used up its fairness quantum and is switched out (priority-based sources
  // demote it, otherwise a spinning high-priority thread starves the thread it waits for)
  virtual void quantum_expired(int /*thread_id*/) {}
  // Asked at every decision at which the running thread could continue: a non-zero answer takes that
  // thread off the processor for that many scheduling points (as an operating system may deschedule a
  // thread for a long time in the middle of anything); it runs earlier only if nothing else can run.
  // The fairness quantum does not apply to a stalled thread - that is the point.
  virtual uint64_t stall_points(int /*thread_id*/) { return 0; }
};

struct Options
{
  uint64_t step_budget   = 300000;  // scheduling points per scenario under the fair tail
  uint64_t tick_ns       = 100;     // virtual time consumed by one clock read
  unsigned max_spurious  = 2;       // consecutive spurious weak-CAS failures per thread
  bool allow_spurious    = true;
  unsigned quantum       = 64;      // fairness: a thread that ran this many consecutive points while
                                    // others are runnable is switched out (spin loops make progress)
  uint64_t timer_slack_ns = 0;      // wake-up latency: when time advances to the earliest deadline D, every timed
                                    // waiter whose deadline lies within [D, D + slack] wakes at the same instant
                                    // (virtual time = the latest of those deadlines, so nobody wakes EARLY); the
                                    // schedule then decides who runs first.  0 = only the earliest waiter wakes.
};

enum class End
{
  kOk,
  kDeadlock,
  kStepBudget,
};

struct Failure
{
  End kind = End::kOk;
  std::string what;
};

// called (on the thread that detects it) when the scenario cannot continue: deadlock or no
// progress within the step budget.  It must not return (the harness saves the case and exits).
using FatalHandler = void (*)(const Failure &);

class Scheduler;
inline Scheduler *&active()
{
  static Scheduler *s = nullptr;
  return s;
}

struct LThread
{
  int id = 0;
  enum St
  {
    RUN,
    BLOCKED,
    DONE
  } st              = RUN;
  const void *waiting_on = nullptr;  // mutex / cv / thread / future the thread is blocked on
  bool timed        = false;
  uint64_t deadline = 0;
  bool timed_out    = false;
  unsigned spurious_run = 0;
  uint64_t own_steps    = 0;
  std::condition_variable cv;
  bool started = false;
};

inline thread_local LThread *tl_self = nullptr;

// OS threads are pooled across scenarios: creating a thread under ASan (shadow reservation,
// alternate signal stack) costs far more than a whole small scenario.
struct PoolWorker
{
  std::mutex m;
  std::condition_variable cv;
  std::function<void()> job;
  bool has_job = false;
  bool busy    = false;  // guarded by pool_mutex()
};
inline std::mutex &pool_mutex()
{
  static std::mutex *m = new std::mutex();
  return *m;
}
inline std::vector<PoolWorker *> &pool()
{
  static std::vector<PoolWorker *> *p = new std::vector<PoolWorker *>();
  return *p;
}
inline std::mutex &handoff_mutex()
{
  static std::mutex *m = new std::mutex();
  return *m;
}
inline void pool_submit(std::function<void()> job)
{
  std::lock_guard<std::mutex> g(pool_mutex());
  for (PoolWorker *w : pool())
    if (!w->busy)
    {
      w->busy = true;
      {
        std::lock_guard<std::mutex> g2(w->m);
        w->job     = std::move(job);
        w->has_job = true;
      }
      w->cv.notify_one();
      return;
    }
  PoolWorker *w = new PoolWorker();
  w->busy       = true;
  w->job        = std::move(job);
  w->has_job    = true;
  pool().push_back(w);
  std::thread([w]() {
    for (;;)
    {
      std::function<void()> j;
      {
        std::unique_lock<std::mutex> lk(w->m);
        w->cv.wait(lk, [&] { return w->has_job; });
        j          = std::move(w->job);
        w->job     = nullptr;
        w->has_job = false;
      }
      j();
      j = nullptr;
      std::lock_guard<std::mutex> g(pool_mutex());
      w->busy = false;
    }
  }).detach();
}

class Scheduler
{
public:
  Scheduler(ChoiceSource *src, const Options &opt, FatalHandler fatal)
      : src_(src), opt_(opt), fatal_(fatal)
  {}

  // ---- introspection for oracles
  uint64_t steps() const { return steps_; }
  // a logical time stamp for history oracles: strictly increasing over the calls made during a run
  // (one logical thread runs at a time, so the order of stamps is the order in which the stamped
  // events really happened); the upper bits are the scheduling-point counter
  uint64_t stamp()
  {
    if (steps_ != stamp_step_)
    {
      stamp_step_ = steps_;
      stamp_sub_  = 0;
    }
    else if (stamp_sub_ < 4095)
      ++stamp_sub_;
    return (steps_ << 12) | stamp_sub_;
  }
  uint64_t now_ns() const { return now_ns_; }
  uint64_t preemptions() const { return preemptions_; }
  uint64_t spurious_failures() const { return spurious_; }
  uint64_t forced_switches() const { return forced_switches_; }
  uint64_t stalls() const { return stalls_; }
  int thread_count() const { return static_cast<int>(threads_.size()); }
  int self_id() const { return tl_self ? tl_self->id : -1; }
  // scheduling points executed by the calling logical thread itself
  uint64_t my_steps() const { return tl_self ? tl_self->own_steps : 0; }

  // ---- lifecycle
  void enter_main()
  {
    auto t = std::make_unique<LThread>();
    t->id  = 0;
    t->st  = LThread::RUN;
    tl_self = t.get();
    threads_.push_back(std::move(t));
    current_ = 0;
    active() = this;
  }
  // returns false when some logical thread is still alive (leak)
  bool leave_main()
  {
    bool all_done = true;
    for (size_t i = 1; i < threads_.size(); ++i)
      if (threads_[i]->st != LThread::DONE)
        all_done = false;
    if (!all_done)
    {
      // A logical thread outlived the scenario (a worker that was never joined, a detached
      // thread).  Its pooled OS thread is parked on state owned by this scheduler, so the
      // process cannot continue with another scenario: report and stop.
      Failure f;
      f.kind = End::kDeadlock;
      f.what = "a thread started by the code under test was still alive when the scenario ended (";
      for (auto &t : threads_)
        f.what += "t" + std::to_string(t->id) +
                  (t->st == LThread::DONE ? ":done " : t->st == LThread::RUN ? ":runnable " : ":blocked ");
      f.what += "): not joined before destruction / Shutdown returned";
      fatal_(f);
      std::abort();
    }
    active() = nullptr;
    tl_self  = nullptr;
    if (all_done)
    {
      // every pooled OS thread has handed the baton on for the last time; wait until each has
      // left finish() (they touch only the global hand-off mutex after that)
      std::lock_guard<std::mutex> lk(handoff_mutex());
    }
    return all_done;
  }

  // ---- scheduling point
  void point(bool prefer_switch = false)
  {
    LThread *me = tl_self;
    if (!me)
      return;
    bump();
    int next = choose(me->st == LThread::RUN ? me->id : -1, prefer_switch);
    switch_to(me, next);
  }

  // the running thread blocks (state already set by the caller) and hands the baton on
  void block_and_switch()
  {
    LThread *me = tl_self;
    bump();
    int next = choose(-1, false);
    switch_to(me, next);
  }

  uint64_t clock_read()
  {
    uint64_t v = now_ns_;
    now_ns_ += opt_.tick_ns;
    return v;
  }

  // weak CAS: should this otherwise-successful attempt fail spuriously?
  bool spurious_failure()
  {
    LThread *me = tl_self;
    if (!me || !opt_.allow_spurious)
      return false;
    if (me->spurious_run >= opt_.max_spurious)
    {
      me->spurious_run = 0;
      return false;
    }
    if (src_->spurious())
    {
      me->spurious_run++;
      ++spurious_;
      return true;
    }
    me->spurious_run = 0;
    return false;
  }

  // ---- thread management (called from vsched::thread)
  LThread *spawn(std::function<void()> body)
  {
    auto t  = std::make_unique<LThread>();
    t->id   = static_cast<int>(threads_.size());
    t->st   = LThread::RUN;
    LThread *raw = t.get();
    threads_.push_back(std::move(t));
    pool_submit([this, raw, body = std::move(body)]() {
      tl_self = raw;
      {
        std::unique_lock<std::mutex> lk(handoff_mutex());
        raw->started = true;
        raw->cv.wait(lk, [&] { return current_ == raw->id; });
      }
      body();
      finish(raw);
      tl_self = nullptr;
    });
    return raw;
  }

  void wake_waiters_on(const void *obj, bool all = true)
  {
    for (auto &t : threads_)
      if (t->st == LThread::BLOCKED && t->waiting_on == obj)
      {
        t->st         = LThread::RUN;
        t->waiting_on = nullptr;
        t->timed      = false;
        t->timed_out  = false;
        if (!all)
          return;
      }
  }

  // block the calling thread on obj, optionally with a virtual deadline; returns true on timeout
  bool block_on(const void *obj, bool timed, uint64_t deadline)
  {
    LThread *me   = tl_self;
    me->st        = LThread::BLOCKED;
    me->waiting_on = obj;
    me->timed     = timed;
    me->deadline  = deadline;
    me->timed_out = false;
    block_and_switch();
    bool to       = me->timed_out;
    me->timed_out = false;
    return to;
  }

  bool is_done(const LThread *t) const { return t->st == LThread::DONE; }

  uint64_t deadline_after(int64_t ns) const
  {
    if (ns <= 0)
      return now_ns_;
    uint64_t d = static_cast<uint64_t>(ns);
    if (d > kForever - now_ns_)
      return kForever;
    return now_ns_ + d;
  }
  static constexpr uint64_t kForever = std::numeric_limits<uint64_t>::max() / 4;

private:
  void bump()
  {
    if (tl_self)
      tl_self->own_steps++;
    if (++steps_ > opt_.step_budget)
    {
      Failure f;
      f.kind = End::kStepBudget;
      f.what = "no progress: more than " + std::to_string(opt_.step_budget) +
               " scheduling points under a fair schedule (livelock / unbounded wait); threads:";
      for (auto &t : threads_)
        f.what += " t" + std::to_string(t->id) + "{" +
                  (t->st == LThread::DONE ? "done" : t->st == LThread::RUN ? "run" : "blocked") +
                  ",own_steps=" + std::to_string(t->own_steps) + "}";
      f.what += " virtual_ms=" + std::to_string(now_ns_ / 1000000);
      fatal_(f);
      std::abort();
    }
  }

  // pick the thread that runs next.  cur = id of the running thread if it can continue, else -1
  int choose(int cur, bool prefer_switch)
  {
    for (;;)
    {
      runnable_.clear();
      for (auto &t : threads_)
        if (t->st == LThread::RUN)
          runnable_.push_back(t->id);
      if (!runnable_.empty())
        break;
      // nobody can run: advance virtual time to the earliest deadline
      LThread *best = nullptr;
      for (auto &t : threads_)
        if (t->st == LThread::BLOCKED && t->timed && t->deadline < kForever &&
            (!best || t->deadline < best->deadline))
          best = t.get();
      if (!best)
      {
        Failure f;
        f.kind = End::kDeadlock;
        f.what = "deadlock: every logical thread is blocked and none has a timed wait (";
        for (auto &t : threads_)
          f.what += "t" + std::to_string(t->id) +
                    (t->st == LThread::DONE ? ":done " : t->st == LThread::RUN ? ":run " : ":blocked ");
        f.what += ")";
        fatal_(f);
        std::abort();
      }
      if (opt_.timer_slack_ns)
      {
        // a real scheduler does not order two timers that expire within microseconds of each other
        const uint64_t horizon = best->deadline + opt_.timer_slack_ns;
        uint64_t latest        = best->deadline;
        for (auto &t : threads_)
          if (t->st == LThread::BLOCKED && t->timed && t->deadline <= horizon && t->deadline > latest)
            latest = t->deadline;
        if (latest > now_ns_)
          now_ns_ = latest;
        for (auto &t : threads_)
          if (t->st == LThread::BLOCKED && t->timed && t->deadline <= horizon)
          {
            t->st         = LThread::RUN;
            t->waiting_on = nullptr;
            t->timed      = false;
            t->timed_out  = true;
          }
        continue;
      }
      if (best->deadline > now_ns_)
        now_ns_ = best->deadline;
      best->st         = LThread::RUN;
      best->waiting_on = nullptr;
      best->timed      = false;
      best->timed_out  = true;
    }
    if (cur >= 0 && stall_id_ < 0 && runnable_.size() > 1)
    {
      uint64_t st = src_->stall_points(cur);
      if (st)
      {
        stall_id_    = cur;
        stall_until_ = steps_ + st;
        ++stalls_;
      }
    }
    if (stall_id_ >= 0)
    {
      if (steps_ >= stall_until_)
        stall_id_ = -1;
      else if (runnable_.size() > 1)
      {
        // the stalled thread is not a candidate while anybody else can run
        auto it = std::find(runnable_.begin(), runnable_.end(), stall_id_);
        if (it != runnable_.end())
        {
          runnable_.erase(it);
          if (cur == stall_id_)
            cur = -1;
        }
      }
    }
    size_t n = runnable_.size();
    if (n == 1)
    {
      run_len_ = 0;
      return runnable_[0];
    }
    if (cur >= 0 && ++run_len_ > opt_.quantum)
    {
      // fairness quantum used up: round-robin to the next runnable thread (not a generated choice)
      run_len_ = 0;
      ++forced_switches_;
      src_->quantum_expired(cur);
      for (int id : runnable_)
        if (id > cur)
          return id;
      return runnable_[0];
    }
    // alternatives: [current thread if it can continue] + the others in id order
    alt_ids_.clear();
    if (cur >= 0)
      alt_ids_.push_back(cur);
    for (int id : runnable_)
      if (id != cur)
        alt_ids_.push_back(id);
    int k = src_->choose(static_cast<int>(n), cur >= 0, prefer_switch, alt_ids_.data());
    if (k < 0 || k >= static_cast<int>(n))
      k = 0;
    if (k == 0)
    {
      if (cur >= 0)
        return cur;
      run_len_ = 0;
      return runnable_[0];
    }
    run_len_ = 0;
    if (cur >= 0)
    {
      ++preemptions_;
      int kk = k - 1;
      for (int id : runnable_)
      {
        if (id == cur)
          continue;
        if (kk-- == 0)
          return id;
      }
      return cur;
    }
    return runnable_[static_cast<size_t>(k)];
  }

  void switch_to(LThread *me, int next)
  {
    last_run_ = next;
    if (next == me->id)
      return;
    std::unique_lock<std::mutex> lk(handoff_mutex());
    current_ = next;
    threads_[static_cast<size_t>(next)]->cv.notify_one();
    me->cv.wait(lk, [&] { return current_ == me->id; });
  }

  void finish(LThread *me)
  {
    me->st = LThread::DONE;
    wake_waiters_on(me);
    bump();
    int next  = choose(-1, false);
    last_run_ = next;
    std::unique_lock<std::mutex> lk(handoff_mutex());
    current_ = next;
    threads_[static_cast<size_t>(next)]->cv.notify_one();
    // the pooled OS thread returns to the pool; nobody waits for the baton on its behalf any more
  }

  ChoiceSource *src_;
  Options opt_;
  FatalHandler fatal_;
  // handoff_mutex() protects current_ for the hand-off only; all other state is touched by the
  // running logical thread only (the hand-off gives happens-before)
  std::vector<std::unique_ptr<LThread>> threads_;
  std::vector<int> runnable_;
  std::vector<int> alt_ids_;
  int current_   = 0;
  int last_run_  = 0;
  uint64_t stamp_step_ = ~uint64_t(0), stamp_sub_ = 0;
  int stall_id_         = -1;
  uint64_t stall_until_ = 0, stalls_ = 0;
  uint64_t steps_ = 0, now_ns_ = 1000000, preemptions_ = 0, spurious_ = 0, forced_switches_ = 0;
  unsigned run_len_ = 0;
};

inline void point()
{
  if (Scheduler *s = active())
    s->point();
}

// ------------------------------------------------------------------------------------------------
// atomic: a plain value whose every access is a scheduling point (sequentially consistent)
template <class T>
class atomic
{
public:
  atomic() noexcept = default;
  constexpr atomic(T v) noexcept : v_(v) {}
  atomic(const atomic &)            = delete;
  atomic &operator=(const atomic &) = delete;

  T load(std::memory_order = std::memory_order_seq_cst) const noexcept
  {
    point();
    return v_;
  }
  void store(T v, std::memory_order = std::memory_order_seq_cst) noexcept
  {
    point();
    v_ = v;
  }
  T exchange(T v, std::memory_order = std::memory_order_seq_cst) noexcept
  {
    point();
    T old = v_;
    v_    = v;
    return old;
  }
  bool compare_exchange_strong(T &expected, T desired, std::memory_order = std::memory_order_seq_cst,
                               std::memory_order = std::memory_order_seq_cst) noexcept
  {
    point();
    if (v_ == expected)
    {
      v_ = desired;
      return true;
    }
    expected = v_;
    return false;
  }
  bool compare_exchange_weak(T &expected, T desired, std::memory_order = std::memory_order_seq_cst,
                             std::memory_order = std::memory_order_seq_cst) noexcept
  {
    point();
    if (v_ == expected)
    {
      Scheduler *s = active();
      if (s && s->spurious_failure())
        return false;  // spurious failure: value and expected untouched
      v_ = desired;
      return true;
    }
    expected = v_;
    return false;
  }
  template <class U = T>
  T fetch_add(U d, std::memory_order = std::memory_order_seq_cst) noexcept
  {
    point();
    T old = v_;
    v_    = static_cast<T>(v_ + d);
    return old;
  }
  template <class U = T>
  T fetch_sub(U d, std::memory_order = std::memory_order_seq_cst) noexcept
  {
    point();
    T old = v_;
    v_    = static_cast<T>(v_ - d);
    return old;
  }
  T fetch_or(T d, std::memory_order = std::memory_order_seq_cst) noexcept
  {
    point();
    T old = v_;
    v_    = static_cast<T>(v_ | d);
    return old;
  }
  T fetch_and(T d, std::memory_order = std::memory_order_seq_cst) noexcept
  {
    point();
    T old = v_;
    v_    = static_cast<T>(v_ & d);
    return old;
  }
  operator T() const noexcept { return load(); }
  T operator=(T v) noexcept
  {
    store(v);
    return v;
  }
  T operator++() noexcept { return static_cast<T>(fetch_add(1) + 1); }
  T operator++(int) noexcept { return fetch_add(1); }
  T operator--() noexcept { return static_cast<T>(fetch_sub(1) - 1); }
  T operator--(int) noexcept { return fetch_sub(1); }
  T operator+=(T d) noexcept { return static_cast<T>(fetch_add(d) + d); }
  T operator-=(T d) noexcept { return static_cast<T>(fetch_sub(d) - d); }
  bool is_lock_free() const noexcept { return true; }

private:
  T v_{};
};

// ------------------------------------------------------------------------------------------------
class mutex
{
public:
  mutex() noexcept                = default;
  mutex(const mutex &)            = delete;
  mutex &operator=(const mutex &) = delete;

  void lock()
  {
    Scheduler *s = active();
    if (!s || !tl_self)
    {
      real_.lock();
      return;
    }
    s->point();
    while (held_)
      s->block_on(this, false, 0);
    held_  = true;
    owner_ = tl_self->id;
  }
  bool try_lock()
  {
    Scheduler *s = active();
    if (!s || !tl_self)
      return real_.try_lock();
    s->point();
    if (held_)
      return false;
    held_  = true;
    owner_ = tl_self->id;
    return true;
  }
  void unlock()
  {
    Scheduler *s = active();
    if (!s || !tl_self)
    {
      real_.unlock();
      return;
    }
    held_  = false;
    owner_ = -1;
    s->wake_waiters_on(this);
    s->point();
  }
  // used by condition_variable: release without a scheduling point
  void release_for_wait(Scheduler *s)
  {
    held_  = false;
    owner_ = -1;
    s->wake_waiters_on(this);
  }
  void reacquire_after_wait(Scheduler *s)
  {
    while (held_)
      s->block_on(this, false, 0);
    held_  = true;
    owner_ = tl_self->id;
  }

private:
  bool held_ = false;
  int owner_ = -1;
  std::mutex real_;  // used only when no scheduler is active
};

enum class cv_status
{
  no_timeout,
  timeout
};

class condition_variable
{
public:
  condition_variable()                                      = default;
  condition_variable(const condition_variable &)            = delete;
  condition_variable &operator=(const condition_variable &) = delete;

  void notify_one() noexcept
  {
    Scheduler *s = active();
    if (!s || !tl_self)
      return;
    s->point();
    s->wake_waiters_on(this, false);
  }
  void notify_all() noexcept
  {
    Scheduler *s = active();
    if (!s || !tl_self)
      return;
    s->point();
    s->wake_waiters_on(this, true);
  }

  void wait(std::unique_lock<mutex> &lk) { wait_impl(lk, false, 0); }
  template <class Pred>
  void wait(std::unique_lock<mutex> &lk, Pred pred)
  {
    while (!pred())
      wait(lk);
  }
  template <class Rep, class Period>
  std::cv_status wait_for(std::unique_lock<mutex> &lk, const std::chrono::duration<Rep, Period> &d)
  {
    Scheduler *s = active();
    uint64_t dl  = s ? s->deadline_after(to_ns(d)) : 0;
    return wait_impl(lk, true, dl) ? std::cv_status::timeout : std::cv_status::no_timeout;
  }
  template <class Rep, class Period, class Pred>
  bool wait_for(std::unique_lock<mutex> &lk, const std::chrono::duration<Rep, Period> &d, Pred pred)
  {
    Scheduler *s = active();
    uint64_t dl  = s ? s->deadline_after(to_ns(d)) : 0;
    while (!pred())
    {
      if (wait_impl(lk, true, dl))
        return pred();
    }
    return true;
  }
  template <class Clock, class Dur>
  std::cv_status wait_until(std::unique_lock<mutex> &lk, const std::chrono::time_point<Clock, Dur> &tp)
  {
    int64_t ns = std::chrono::duration_cast<std::chrono::nanoseconds>(tp.time_since_epoch()).count();
    return wait_impl(lk, true, ns < 0 ? 0 : static_cast<uint64_t>(ns)) ? std::cv_status::timeout
                                                                      : std::cv_status::no_timeout;
  }
  template <class Clock, class Dur, class Pred>
  bool wait_until(std::unique_lock<mutex> &lk, const std::chrono::time_point<Clock, Dur> &tp, Pred pred)
  {
    while (!pred())
      if (wait_until(lk, tp) == std::cv_status::timeout)
        return pred();
    return true;
  }

  template <class Rep, class Period>
  static int64_t to_ns(const std::chrono::duration<Rep, Period> &d)
  {
    using ld = std::chrono::duration<long double, std::nano>;
    long double v = std::chrono::duration_cast<ld>(d).count();
    if (v >= 4.0e18L)
      return std::numeric_limits<int64_t>::max();
    if (v <= 0)
      return 0;
    return static_cast<int64_t>(v);
  }

private:
  // returns true when the wait ended by timeout
  bool wait_impl(std::unique_lock<mutex> &lk, bool timed, uint64_t deadline)
  {
    Scheduler *s = active();
    if (!s || !tl_self)
    {
      fprintf(stderr, "vsched::condition_variable used outside a scheduled scenario\n");
      std::abort();
    }
    mutex *m = lk.mutex();
    if (timed && deadline <= s->now_ns())
    {
      // already expired: still a scheduling point, the lock is released and re-taken
      m->release_for_wait(s);
      s->point(true);
      m->reacquire_after_wait(s);
      return true;
    }
    // register as waiter, release the user lock and block - atomically w.r.t. other logical threads
    m->release_for_wait(s);
    bool to = s->block_on(this, timed && deadline < Scheduler::kForever, deadline);
    m->reacquire_after_wait(s);
    return to;
  }
};

// ------------------------------------------------------------------------------------------------
class thread
{
public:
  using id = int;
  thread() noexcept = default;
  template <class F, class... Args,
            class = typename std::enable_if<!std::is_same<typename std::decay<F>::type, thread>::value>::type>
  explicit thread(F &&f, Args &&...args)
  {
    Scheduler *s = active();
    if (!s || !tl_self)
    {
      fprintf(stderr, "vsched::thread created outside a scheduled scenario\n");
      std::abort();
    }
    auto bound = std::make_shared<std::tuple<typename std::decay<F>::type, typename std::decay<Args>::type...>>(
        std::forward<F>(f), std::forward<Args>(args)...);
    t_ = s->spawn([bound]() {
      std::apply([](auto &&fn, auto &&...a) { std::invoke(std::move(fn), std::move(a)...); }, std::move(*bound));
    });
    s->point();
  }
  thread(const thread &) = delete;
  thread(thread &&o) noexcept : t_(o.t_) { o.t_ = nullptr; }
  thread &operator=(thread &&o) noexcept
  {
    if (t_)
      std::terminate();
    t_   = o.t_;
    o.t_ = nullptr;
    return *this;
  }
  ~thread()
  {
    if (t_)
      std::terminate();
  }
  bool joinable() const noexcept { return t_ != nullptr; }
  void join()
  {
    Scheduler *s = active();
    s->point();
    while (!s->is_done(t_))
      s->block_on(t_, false, 0);
    t_ = nullptr;
  }
  void detach() { t_ = nullptr; }
  id get_id() const noexcept { return t_ ? t_->id : -1; }
  static unsigned hardware_concurrency() noexcept { return 4; }

private:
  LThread *t_ = nullptr;
};

namespace this_thread
{
inline void yield() noexcept
{
  if (Scheduler *s = active())
    s->point(true);
}
template <class Rep, class Period>
inline void sleep_for(const std::chrono::duration<Rep, Period> &d)
{
  Scheduler *s = active();
  if (!s || !tl_self)
    return;
  int64_t ns = condition_variable::to_ns(d);
  if (ns <= 0)
  {
    s->point(true);
    return;
  }
  static const int sleep_token = 0;
  (void)sleep_token;
  s->block_on(tl_self, true, s->deadline_after(ns));  // blocked on itself: only time wakes it
}
inline int get_id() noexcept
{
  return tl_self ? tl_self->id : -1;
}
}  // namespace this_thread

// ------------------------------------------------------------------------------------------------
struct steady_clock
{
  using rep                       = int64_t;
  using period                    = std::nano;
  using duration                  = std::chrono::nanoseconds;
  using time_point                = std::chrono::time_point<steady_clock, duration>;
  static constexpr bool is_steady = true;
  static time_point now() noexcept
  {
    Scheduler *s = active();
    if (!s)
      return time_point(duration(0));
    return time_point(duration(static_cast<int64_t>(s->clock_read())));
  }
};

struct system_clock
{
  using rep                       = int64_t;
  using period                    = std::nano;
  using duration                  = std::chrono::nanoseconds;
  // the std clock's time_point type, so that code which hands now() to an API taking
  // std::chrono::system_clock::time_point (opentelemetry::common::SystemTimestamp) compiles unchanged
  using time_point                = std::chrono::time_point<std::chrono::system_clock, duration>;
  static constexpr bool is_steady = false;
  static time_point now() noexcept
  {
    Scheduler *s = active();
    if (!s)
      return time_point(duration(0));
    return time_point(duration(static_cast<int64_t>(s->clock_read())));
  }
};

// ------------------------------------------------------------------------------------------------
// promise<void>/future<void>: what the periodic metric reader uses
using future_status = std::future_status;

struct SharedState
{
  bool ready = false;
};

template <class T>
class future;

template <>
class future<void>
{
public:
  future() = default;
  explicit future(std::shared_ptr<SharedState> st) : st_(std::move(st)) {}
  bool valid() const noexcept { return static_cast<bool>(st_); }
  void wait() const
  {
    Scheduler *s = active();
    s->point();
    while (!st_->ready)
      s->block_on(st_.get(), false, 0);
  }
  void get()
  {
    wait();
    st_.reset();
  }
  template <class Rep, class Period>
  std::future_status wait_for(const std::chrono::duration<Rep, Period> &d) const
  {
    Scheduler *s = active();
    s->point();
    uint64_t dl = s->deadline_after(condition_variable::to_ns(d));
    while (!st_->ready)
    {
      if (dl <= s->now_ns())
        return std::future_status::timeout;
      if (s->block_on(st_.get(), dl < Scheduler::kForever, dl) && !st_->ready)
        return std::future_status::timeout;
    }
    return std::future_status::ready;
  }

private:
  std::shared_ptr<SharedState> st_;
};

template <class T>
class promise;

template <>
class promise<void>
{
public:
  promise() : st_(std::make_shared<SharedState>()) {}
  promise(promise &&) noexcept            = default;
  promise &operator=(promise &&) noexcept = default;
  promise(const promise &)                = delete;
  future<void> get_future() { return future<void>(st_); }
  void set_value()
  {
    Scheduler *s = active();
    if (s)
      s->point();
    st_->ready = true;
    if (s)
      s->wake_waiters_on(st_.get());
  }

private:
  std::shared_ptr<SharedState> st_;
};

// ------------------------------------------------------------------------------------------------
// run one scenario on the calling OS thread as logical thread 0
struct RunStats
{
  uint64_t steps = 0, preemptions = 0, spurious = 0, forced_switches = 0, virtual_ns = 0, stalls = 0;
  int threads  = 0;
  bool leaked_threads = false;
};

template <class Body>
RunStats run(ChoiceSource *src, const Options &opt, FatalHandler fatal, Body &&body)
{
  Scheduler s(src, opt, fatal);
  s.enter_main();
  body(s);
  RunStats r;
  r.steps       = s.steps();
  r.preemptions = s.preemptions();
  r.spurious    = s.spurious_failures();
  r.forced_switches = s.forced_switches();
  r.stalls          = s.stalls();
  r.virtual_ns  = s.now_ns();
  r.threads     = s.thread_count();
  r.leaked_threads = !s.leave_main();
  return r;
}

}  // namespace vsched
